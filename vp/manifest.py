"""Generates /verif/MANIFEST.json from the table below (python -m vp.manifest).

A property is *claimed* iff props/<id>.py exists and it has an entry in
CLAIMS; every other property of properties.jsonl is listed under
not_applicable with the reason given in NOT_CLAIMED (or 'not built yet').
"""
import json
import os

from vp import build

VERIF = build.VERIF

GUARD = "PYUNICORN_VERIF"

CLAIMS = {
    "C14": dict(
        technique="exhaustive enumeration + Hypothesis generation against an "
                  "exact rational (fractions.Fraction) reference; metamorphic "
                  "relations (affine maps, time reversal)",
        text="Every series over {0,1,2,3} of length 2..7 (21 840 series x 2 "
             "graph types) is enumerated and thousands of generated "
             "integer/dyadic series with plateaus, collinear triples, "
             "irregular timings and missing masks are compared link by link "
             "with a rational-arithmetic evaluation of the visibility "
             "criterion; affine invariance, time-reversal mirroring of "
             "retarded/advanced measures and the degree sum rule are checked "
             "as metamorphic relations. Exploration, not proof: absence of "
             "violations is established for the enumerated set only.",
        note="Trusted: the reference (40 lines, exact arithmetic); input "
             "domain restricted to float32-exact values so that the "
             "library's float32 slope comparison is decisive.",
        design="3/C14"),
}

CLAIMS["C03"] = dict(
    technique="exhaustive small-graph enumeration + Hypothesis-generated "
              "graphs against an independent dense reference model of every "
              "measure's definition",
    text="All 1 098 labelled undirected graphs on 2..5 nodes and all 4 164 "
         "directed graphs on 2..4 nodes are enumerated, and generated graphs "
         "of 6..40 nodes (random over the full density range, structured "
         "families, disjoint unions, isolated nodes, link-weight matrices, "
         "source/target sets) are compared measure by measure (~70 clauses: "
         "degrees/strengths, clustering, transitivity, four motif "
         "clusterings incl. weighted, cliquishness 3-5, higher-order "
         "transitivity, weighted/unweighted path lengths, closeness, "
         "efficiency, vulnerability, node/link/interregional betweenness, "
         "Newman and Arenas random-walk betweenness, matching index, "
         "coreness, assortativity, Laplacians, eigenvector centrality, "
         "PageRank, synchronizability, n.s.i. measures from their formulas "
         "and their unit-weight relations) with vp/ref/graph.py. "
         "Exploration: exhaustive below the stated sizes, sampled above.",
    note="Trusted: vp/ref/graph.py (plain numpy, written from the "
         "docstrings and cited papers). Spectral / closeness-type measures "
         "only on connected undirected graphs; int16/int32 overflow sizes "
         "are unreachable.",
    design="3/C03")

CLAIMS["C02"] = dict(
    technique="metamorphic relation (node splitting built by the harness) "
              "over exhaustively enumerated small graphs and "
              "Hypothesis-generated graphs, weights, nodes and proportions",
    text="Every public nsi_* measure of Network and InteractingNetworks "
         "(a completeness assertion fails the harness when a new one is "
         "neither in the table nor explicitly out of scope) is evaluated on "
         "a network and on its split built independently by the harness: "
         "global values equal, per-node values equal on untouched nodes and "
         "on both twins, pairwise values equal on untouched pairs; "
         "undirected, directed (in/out/bil/motif), link-weighted, "
         "typical-weight-corrected and two-subnetwork variants (both "
         "argument orders, arbitrary list order), iterated splits; "
         "splitted_copy() itself is compared with the harness's "
         "construction incl. link attributes. Thorough tier enumerates all "
         "graphs <=5 nodes undirected / <=4 directed x all nodes x 3 "
         "proportions x all bipartitions; beyond that sampled.",
    note="Trusted: the harness's split construction (20 lines). Known "
         "finding KF-C02-1 (unreachable pairs in cross closeness / path "
         "length) is excluded by signature and re-demonstrated from its "
         "replay on every run.",
    design="3/C02")

CLAIMS["C07"] = dict(
    technique="Hypothesis generation + small exhaustive enumeration against "
              "an independent float64 reference of distances, thresholding, "
              "rate quantiles and the cross/joint/inter-system compositions",
    text="Every series over {0,1,2} of length 1..5 x 3 metrics x 4 "
         "thresholds (ties pinned exactly) is enumerated; generated "
         "multi-dimensional / embedded series, thresholds on and next to "
         "actual distances, threshold_std, global and local rates, adaptive "
         "neighbourhood sizes, NaN masks, unequal lengths and lags of either "
         "sign are checked cell by cell against vp/ref/recurrence.py (a cell "
         "within 2 ulp of the threshold in rounded arithmetic is 'either "
         "answer'); joint / cross / inter-system sizes and compositions, "
         "network adjacency = R minus diagonal, and applicability + value "
         "of all 25 RQA methods on every derived class.",
    note="Trusted: vp/ref/recurrence.py and vp/ref/rqa.py. Known finding "
         "KF-C07-7 (RecurrenceNetwork with missing values overwrites N) is "
         "excluded by signature.",
    design="3/C07")
CLAIMS["C08"] = dict(
    technique="exhaustive enumeration of all symmetric 0/1 matrices up to "
              "5x5 (realised through crafted series) + Hypothesis "
              "generation, against a run-length-count reference",
    text="All 1 099 symmetric 0/1 matrices with unit diagonal of size 1..5 "
         "are realised by crafted series under the supremum metric and "
         "crossed with missing-sample masks; generated series up to length "
         "60 (all metrics, embedding, thresholds on/next to distances). "
         "Diagonal, vertical and white-vertical histograms equal a direct "
         "run-length count (with the missing-value rule), accounting "
         "identities hold, sequential mode equals matrix mode bit for bit, "
         "and 13 scalar RQA measures equal the documented functions of the "
         "histograms for l_min/v_min/w_min in 1..5.",
    note="Trusted: vp/ref/rqa.py. The diagonal histogram is compared on "
         "symmetric matrices only (documented doubling of one triangle).",
    design="3/C08")
CLAIMS["C15"] = dict(
    technique="Hypothesis-generated call histories (1..6 surrogate calls "
              "on one object, generated as data) with validity predicates "
              "and an independent twin / recurrence reference",
    text="For generated data (N 1..4 x n_time 1..64; distinct, tied, "
         "zero-sum and constant rows) and histories of surrogate calls with "
         "harness-drawn seeds: shuffle and AAFT outputs are exact row "
         "permutations, Fourier and 'true spectrum' outputs keep the "
         "amplitude spectrum at interior frequencies, twins equal the "
         "reference twin sets, twin surrogates consist of original states "
         "with admissible transitions; every clause is re-checked after "
         "other calls on the same object; RecurrencePlot.twins / "
         "twin_surrogates are held to the same oracle; a row-independence "
         "metamorphic check catches cross-row rank mix-ups.",
    note="Trusted: vp/ref/surrogates.py. Amplitude distributions of random "
         "phases are (correctly) not asserted.",
    design="3/C15")
CLAIMS["C16"] = dict(
    technique="Hypothesis generation against literal loop implementations "
              "(exact rational arithmetic) of the published ES / ECA "
              "formulas + metamorphic relations",
    text="Generated pairs and matrices of event series (0..8 events, "
         "simultaneous events, events at both ends, timestamps, taumax "
         "finite/inf, lags, three window types, all symmetrisations): range "
         "[0,1], equality with vp/ref/events.py where the published formula "
         "is unambiguous, exchange symmetry, shift invariance, time "
         "rescaling with unbounded window, N x N assembly under each "
         "symmetrisation, and exact thresholding of continuous data by "
         "quantile or value.",
    note="Trusted: vp/ref/events.py. Configurations with coincidences in "
         "both directions are held to the relations only (the double-count "
         "correction is cited, not spelled out, by the repository).",
    design="3/C16")

CLAIMS["C04"] = dict(
    technique="metamorphic relation m(pi.G) == pi.m(G) with the relabelled "
              "object rebuilt from permuted inputs; measure table by "
              "introspection; all permutations of small graphs + "
              "Hypothesis-generated permutations",
    text="75 argument-free Network measures (found by introspection), "
         "explicit argument patterns (keys, typical weights, node lists, "
         "orders), 46 InteractingNetworks methods taking node lists (lists "
         "mapped through the permutation AND re-ordered), GeoNetwork with "
         "permuted coordinates, ResNetwork with permuted resistances, "
         "RecurrenceNetwork with permuted state vectors and VisibilityGraph "
         "through permuted_copy(): per-node results permute, pairwise "
         "results permute on both axes, global results are equal. All n! "
         "permutations for every graph on <= 4 nodes and a fixed sample of "
         "5-node graphs; random permutations beyond.",
    note="A measure is compared where both sides return a value or raise "
         "the same exception type; spectral and random-walk measures on "
         "(connected) undirected graphs only; on directed input only the "
         "InteractingNetworks methods with explicit directed support.",
    design="3/C04")
CLAIMS["C09"] = dict(
    technique="Hypothesis generation of similarity matrices and setter "
              "histories (as data) against a float32 numpy model; "
              "fresh-twin differential after every step",
    text="Generated similarity matrices (any sign, ties, arbitrary "
         "diagonal, symmetric or not), grids, thresholds on / next to "
         "matrix values, densities in [0,1], non_local on/off and histories "
         "of set_threshold / set_link_density / set_non_local: adjacency "
         "equals the strict-threshold rule (with the documented tanh "
         "distance weight), monotone in the threshold, symmetric for "
         "symmetric input, density never exceeded and short by at most the "
         "ties, reported threshold / density / n_links / adjacency "
         "consistent and equal to a fresh network after every step; eight "
         "data-derived subclasses on generated ClimateData.",
    note="Trusted: the numpy model of the documented rule. Boundary pairs "
         "(non-float32 threshold within 2 ulp32 of a similarity) are either "
         "answer.",
    design="3/C09")
CLAIMS["C10"] = dict(
    technique="Hypothesis generation against reference statistics "
              "(numpy/scipy/brute force) + metamorphic relations + "
              "differential compiled vs pure-Python implementation",
    text="Generated data sets (T 3..80, N 2..6 incl. N > T, constant, "
         "duplicated, negated, tied series; tau_max 0..6 and the int8 edge "
         "128..135): Pearson / lagged cross-correlation in both lag modes "
         "incl. the reversed-lag bookkeeping, Spearman, partial correlation, "
         "binned / Gaussian / kNN mutual information, Gaussian and kNN "
         "information transfer, symmetrize_by_absmax, climate similarity "
         "classes, Surrogates.test_* matrices, compiled vs pure-Python "
         "CouplingAnalysis, symmetry / bounds / affine invariance / "
         "permutation relations; tolerance 1e-5 (calibrated: max observed "
         "3.6e-7).",
    note="Trusted: vp/ref/stats.py. Known findings KF-C10-1 (binned MI "
         "scaled by (T-tau)/T, pinned by the suite) and KF-C10-4 (int8 lag "
         "overflow for tau_max >= 128) are excluded by signature.",
    design="3/C10")
CLAIMS["C18"] = dict(
    technique="Hypothesis generation of connected resistor networks and "
              "update histories against an independent grounded-Laplacian "
              "solver and exact (Fraction) series-parallel evaluation",
    text="Connected graphs by construction (N 2..10), dyadic / float / "
         "complex impedances, series-parallel circuits from expression "
         "trees, histories of update_resistances: effective resistance "
         "equals the reference solve, is a metric, scales linearly, obeys "
         "the Rayleigh path bound, series / parallel laws (exact) and "
         "Foster's theorem; vertex / edge current-flow betweenness, "
         "admittive degree and clustering equal their defining sums; every "
         "quantity follows an update and equals a fresh twin.",
    note="Trusted: vp/ref/circuits.py. float32 kernels compared with 1e-4 "
         "relative plus an analytic cancellation term.",
    design="3/C18")

CLAIMS["C11"] = dict(
    technique="exhaustive enumeration of graphs x group assignments + "
              "Hypothesis generation, against definitions evaluated on "
              "sub-blocks of harness-computed matrices; dense-vs-sparse "
              "differential; symmetry and whole-network metamorphic "
              "relations",
    text="Every undirected graph on 2..4 nodes (a fixed fraction on 5) x "
         "every assignment of nodes to {group 1, group 2, neither} x two "
         "list orders, plus generated graphs up to 14 nodes with random "
         "groups in random order (incl. unreachable pairs, directed "
         "networks for the methods that support them): ~60 clauses covering "
         "sub-block extraction, cross/internal degrees and strengths, link "
         "counts and densities, cross clustering / transitivity (compiled "
         "== _sparse == definition), path-length, closeness, efficiency and "
         "betweenness measures, all n.s.i. cross/internal measures; "
         "group-order symmetry; both groups = whole node set reproduces the "
         "single-network measure (12 correspondences).",
    note="Trusted: vp/ref/graph.py and the sub-block formulas in the "
         "oracle. Known finding KF-C11-1 (nsi_cross_average_path_length "
         "normalised by W1*W1, pinned by the suite) is excluded by a "
         "clause-name suffix computed from the case (groups of unequal "
         "weight). CoupledClimateNetwork wrappers are not exercised.",
    design="3/C11")
CLAIMS["C12"] = dict(
    technique="Hypothesis generation + exhaustive lattice of special "
              "coordinate pairs against closed-form float64 geometry with "
              "an analytic error bound",
    text="All pairs over a lattice of special coordinates (poles, 0/+-180/"
         "360, near-polar) and generated coordinate sets with duplicates, "
         "360-degree aliases, exact / perturbed antipodes and neighbours "
         "down to 1e-7 degrees: great-circle distances equal the haversine/"
         "atan2 form within min(2^-10, 2^-18 + 2^-20/sin theta), exact "
         "symmetry, self-distance, range, triangle inequality; Euclidean "
         "distances for dimension 1..4; nearest-node lookup; rectangular "
         "grids = Cartesian product in documented order; node weights "
         "cos / cos^2 of each node's own latitude incl. after switching the "
         "weight type; area-weighted connectivity and link-distance "
         "measures equal their defining sums.",
    note="Trusted: vp/ref/geometry.py. The error bound is the calibrated "
         "one of DESIGN 3/C12 (a 1.0000036x precision mutant is caught).",
    design="3/C12")
CLAIMS["C13"] = dict(
    technique="Hypothesis-generated window histories (as data) + "
              "exhaustive window lattice against a plain numpy model",
    text="Every time window over a 7-bound lattice x cycle lengths x both "
         "anomaly flags and every lat/lon window over a 6x5 lattice are "
         "enumerated; generated observables (T 1..36 x N 1..8, irregular "
         "float32-exact grids, cycles that do not divide T in ~50% of "
         "cases) with histories of set_window / set_global_window: "
         "observable, grid, window, phase indices, phase means, anomalies "
         "and selected months have the model's shapes and values after "
         "every step; anomalies have zero phase mean and add back to the "
         "windowed observable; the global window restores the original "
         "view.",
    note="Trusted: the numpy model in props/c13.py. Windows selecting "
         "nothing are outside the domain; bounds are float32-exact.",
    design="3/C13")

CLAIMS["C05"] = dict(
    technique="round trip / differential over construction paths: "
              "exhaustive small graphs + Hypothesis-generated graphs, "
              "weights and link attributes, the generated inputs being "
              "the model",
    text="Every case (all graphs on 2..4 nodes undirected / 2..3 directed; "
         "generated graphs up to 12 nodes; 0- and 1-link networks with "
         "isolated nodes over-represented) is pushed through 11 "
         "constructor paths (dense list / ndarray of 4 dtypes, 4 "
         "scipy.sparse formats, edge list as list and array), "
         "re-assignment of adjacency / edge list on an existing object, "
         "FromIGraph, copy, undirected_copy, permuted_copy(identity), "
         "save->Load in graphml / graphmlz / pickle / gml, and "
         "SpatialNetwork / GeoNetwork (each weight type, adjacency and "
         "edge-list construction, save->Load with grid files): N, n_links, "
         "link_density, adjacency, sp_A, embedded graph, node weights with "
         "total and mean, every link attribute agree with the input; the "
         "original object is unchanged afterwards.",
    note="Trusted: the generated inputs as model. Text formats compared "
         "with 1e-12 on dyadic values, float32 geographic weights 2e-6.",
    design="3/C05")

CLAIMS["C01"] = dict(
    technique="model-based histories: Hypothesis-generated sequences of "
              "mutators and queries (as data) + systematic enumeration of "
              "every (mutator, query pattern) pair, fresh-twin differential "
              "after every query",
    text="For 11 class families (Network, InteractingNetworks, "
         "VisibilityGraph, GeoNetwork, ClimateNetwork, "
         "TsonisClimateNetwork, RecurrencePlot, RecurrenceNetwork, "
         "JointRecurrenceNetwork, ResNetwork, Surrogates) histories of "
         "public mutators (adjacency dense/sparse, edge list, node weights, "
         "node-weight type, set/del link attribute, rewiring, threshold / "
         "link density / non_local / winter_only, the five recurrence "
         "setters, update_resistances, embedding, normalisation) "
         "interleaved with queries in up to ~95 argument patterns per "
         "family (keys, typical weights, positional vs keyword, node "
         "lists, summary attributes) are executed; every query result (or "
         "exception type) must equal that of a fresh object built from the "
         "model's current inputs. A second sub-check enumerates every "
         "(mutator, query pattern) pair of every family in a canonical "
         "q,m,q,m',q,m,q history (~3 100 histories).",
    note="Trusted: the public constructors as the way to build the fresh "
         "twin; after randomised mutators the model adopts the object's "
         "adjacency. The long-lived object is always queried before its "
         "twin so lru_cache eviction cannot hide a stale entry. ClimateData "
         "windows are decided by C13, update_resistances histories also by "
         "C18, ClimateNetwork setter histories also by C09.",
    design="3/C01")

CLAIMS["C20"] = dict(
    technique="shape-directed fuzzing of public entry points against an "
              "ASan+UBSan build of the working tree (sanitizer = crash "
              "oracle), exhaustive {0,1,2,3}^k shape grid + Hypothesis-drawn "
              "sizes / dtypes / layouts / value classes",
    text="29 public entry points (1..15 variants each) reaching all 58 "
         "compiled functions of the four _ext modules are driven in "
         "persistent child interpreters running an address/undefined-"
         "behaviour-sanitized rebuild of /repo's working tree: every size "
         "tuple in {0,1,2,3}^k per entry point (exhaustive), plus generated "
         "sizes up to 16 with N != T both ways, dtypes f8/f4/i8/b1, "
         "non-contiguous / transposed / reversed views, random / constant / "
         "tied / NaN / huge values. A Python exception is a pass; a "
         "sanitizer report with a pyunicorn frame, a signal, or a Cython "
         "bounds-guard trip on a well-formed case is a violation; the "
         "evidence lists kernels_reached / kernels_total.",
    note="Trusted: gcc ASan/UBSan (cannot see overruns landing in another "
         "live block; float-cast overflow is not instrumented). Generator "
         "keeps the termination preconditions of kNN and rewiring kernels.",
    design="3/C20")

CLAIMS["C19"] = dict(
    technique="serial-vs-distributed differential with a harness-owned "
              "scheduler: in-process MPI stand-in (snapshot semantics, "
              "per-worker FIFOs, generated execution orders), exhaustive "
              "enumeration of schedules and of chunk partitions",
    text="The library's mpi module is patched in-process (available, size, "
         "comm = FakeComm that pickles at send and evaluates jobs as "
         "serve() does, in an order taken from the generated case; the "
         "library's real serve() is also used as worker). Newman, n.s.i. "
         "Newman (bit-exact) and n.s.i. Arenas (1e-9) betweenness under "
         "worker counts 2..N+2, silence levels 0..3 and eager / lazy / "
         "reverse / priority / drawn schedules equal the serial result on "
         "networks with several components of 1..125 nodes; all 24 "
         "execution orders of up to 4 queued jobs are enumerated on fixed "
         "networks; the chunk kernels are called on every contiguous "
         "composition of the node range (all 2^(N-1) for small graphs, "
         "random beyond) and must concatenate / sum to the full-range call "
         "and assemble to the public serial measure; "
         "nsi_betweenness(parallelize=True) equals the serial call on a few "
         "graphs with really spawned pools.",
    note="Trusted: the stand-in (FIFO-per-worker message passing with "
         "snapshot semantics). Real MPI timing, crashes and mpi4py itself "
         "are not exercised (not installed).",
    design="3/C19")

CLAIMS["C17"] = dict(
    technique="Hypothesis generation of inputs, parameters and seed pairs "
              "with validity predicates on the output (many correct "
              "outputs exist); generator-established termination "
              "preconditions + a deterministic draw-count watchdog",
    text="Model generators (ErdosRenyi, BarabasiAlbert(+igraph), "
         "Configuration, WattsStrogatz, GrowWeights), randomly_rewire, "
         "geographical rewiring I-III on five kinds of distance matrices, "
         "RandomlyRewireCrossLinks, RandomlySetCrossLinks(_sparse) and "
         "set_random_links_by_distance are run with 1..3 harness-drawn "
         "seed pairs per input: simple-graph output, documented exact link "
         "counts, degree sequences (and cross degrees, internal "
         "adjacencies) preserved, sorted link lengths within iterations*eps "
         "globally (I) and per node (II, III), degree pairs of links "
         "preserved (III), requested cross-link counts exact, untouched "
         "parts and caller arrays unchanged, object state (n_links, "
         "density, embedded graph) consistent, 0 iterations = identity.",
    note="Trusted: the predicates in props/c17.py. Every randomness source "
         "(numpy.random and random, used by igraph) is seeded from the "
         "case; an eligible swap is established by the generator, and a "
         "proposal-count budget (25x the expected number) turns a "
         "non-terminating kernel into a violation instead of a hang.",
    design="3/C17")

CLAIMS["C06"] = dict(
    technique="Hypothesis-generated query sequences (as data) + exhaustive "
              "ordered pairs, fresh-twin differential for order "
              "independence, repeat check, byte-wise snapshots of every "
              "caller-owned array and shared data object",
    text="For Network, GeoNetwork (+GeoGrid), SpatialNetwork, "
         "InteractingNetworks, ResNetwork, nine climate network classes "
         "built from ONE shared ClimateData in generated order, "
         "Data/ClimateData, the recurrence family, VisibilityGraph, "
         "Surrogates, CouplingAnalysis and EventSeries: (1) every query "
         "inside a generated sequence equals its value on a fresh twin "
         "evaluated in isolation (interferer -> victim pairs are named in "
         "the signature), all ordered pairs of ~130 Network and ~190 "
         "GeoNetwork queries are enumerated in the thorough tier; (2) a "
         "repeated deterministic query returns an equal value and values "
         "handed out earlier are not changed by later library calls; (3) "
         "caller-owned arrays and the shared data object's observable / "
         "anomaly / phase means are byte-identical after every constructor "
         "and query, unless the docstring declares the method in-place.",
    note="Trusted: fresh twins from the public constructors. Randomised "
         "methods take part as seeded interferers only; methods that loop "
         "until a random proposal is accepted are not called here (C17).",
    design="3/C06")

NOT_CLAIMED = {}


# generators added after the seeded-change rounds (DESIGN 7.1a)
ADDENDA = {
    "C01": "; every mutator re-called after another one (m,q,m',m,q), "
           "caller-owned arguments edited in place and passed again; "
           "families for every Network subclass with public setters (incl. "
           "InterSystemRecurrenceNetwork, CoupledClimateNetwork, all "
           "data-derived climate networks, geographical rewirings)",
    "C02": "; inputs in every array representation, node weights of any "
           "magnitude and precision, long-lived re-weighted objects",
    "C03": "; dense graphs with degrees up to 39, loop-based definitions of "
           "the n.s.i. measures (incl. random-walk / circuit definitions of "
           "the n.s.i. Arenas and Newman betweenness), weights of any "
           "magnitude, inputs in every array representation",
    "C04": "; relabelling also through igraph permute_vertices + FromIGraph",
    "C05": "; caller buffers overwritten after construction",
    "C07": "; every setter, detours through another mode and back",
    "C08": "; both modes re-thresholded on the same objects",
    "C10": "; data with several spatial dimensions",
    "C09": "; every data-derived subclass incl. Rainfall, one matrix over "
           "two layers (CoupledClimateNetwork)",
    "C12": "; every coordinate axis in its own array representation; "
           "caller weights before a weight-type switch",
    "C13": "; one caller-owned window dict updated in place; decimal "
           "(not float32-exact) coordinates with bounds on samples",
    "C15": "; fluctuations far below single precision on a large level",
    "C14": "; series of 130..320 samples against an int64 evaluation of "
           "the same criterion",
    "C16": "; time origins at epoch magnitudes; the climate-network class "
           "against the same formulas",
    "C18": "; hubs of degree 65..99",
    "C20": "; long time axes (up to 3000 / 6000 samples)",
}


def main():
    props = [json.loads(l) for l in open(os.path.join(VERIF,
                                                      "properties.jsonl"))]
    checks = []
    na = []
    for p in props:
        pid = p["id"]
        have = os.path.exists(os.path.join(VERIF, "props",
                                           pid.lower() + ".py"))
        c = CLAIMS.get(pid)
        if c is None or not have:
            na.append({"property_id": pid, "reason": NOT_CLAIMED.get(
                pid, "check not built yet in this round (planned in "
                     "DESIGN.md section 3/%s); nothing is claimed for it"
                % pid)})
            continue
        checks.append({
            "property_id": pid,
            "quick_cmd": "./check %s --tier quick" % pid,
            "thorough_cmd": "./check %s --tier thorough" % pid,
            "evidence_file": "/verif/evidence/%s.json" % pid,
            "replay_cmd_template": "./check %s --replay {path}" % pid,
            "engine": "vp",
            "level_claimed": {"category": "exploration", "text": c["text"],
                              "design_ref": c["design"]},
            "level_note": c["note"],
            "technique": c["technique"] + ADDENDA.get(pid, ""),
        })
    man = {
        "version": 1,
        "setup_cmd": "/venv/bin/python -m vp.setup plain asan",
        "hooks": {
            "guard": GUARD,
            "enable": "no hook is needed: checks import a private build of "
                      "/repo's working tree (vp/build.py) and observe cache "
                      "hits through functools cache_info(); the guard name is "
                      "reserved and no source commit uses it",
            "baseline_off_cmd": "cd /repo && /venv/bin/python -m pytest -ra "
                                "-q -p no:cacheprovider --timeout=900 "
                                "--continue-on-collection-errors",
            "source_commits": [],
            "add_only": True,
        },
        "engines": [{
            "name": "vp",
            "path": "/verif/vp",
            "serves_properties": [c["property_id"] for c in checks],
            "kind_free_text": "Hypothesis-driven generated-input search with "
                              "collect-then-shrink, exhaustive small-case "
                              "enumeration, reference models, metamorphic "
                              "relations, JSON replays; 16-way sharding over "
                              "a hash-keyed private build of the working tree",
        }],
        "checks": checks,
        "not_applicable": na,
        "notes": "VERIF_REPO=<dir> makes every check build and test another "
                 "working tree instead of /repo (used for seeded mutants). "
                 "Exit 2 + HARNESS-ERROR is a harness failure, never a "
                 "verdict.",
    }
    with open(os.path.join(VERIF, "MANIFEST.json"), "w") as fh:
        json.dump(man, fh, indent=1)
        fh.write("\n")
    print("claimed:", [c["property_id"] for c in checks])
    print("not claimed:", [n["property_id"] for n in na])


if __name__ == "__main__":
    main()
