"""Sensitivity helper:  python -m vp.mutate <ID>[,<ID>..] <file> <old> <new>
[--jobs N] [--only PAT]

Creates a scratch git worktree of /repo's HEAD under /root/scratch/mut-<pid>,
replaces the first occurrence of <old> by <new> in <file> (relative to the
repository root; <old> must occur), runs ./check <ID> --no-evidence against
it via VERIF_REPO and removes the worktree.  Prints CAUGHT / MISSED.
Also accepts a patch file:  python -m vp.mutate <ID> --patch FILE
"""
import argparse
import os
import shutil
import subprocess
import sys

from vp import build


def main():
    ap = argparse.ArgumentParser()
    ap.add_argument("props")
    ap.add_argument("file", nargs="?")
    ap.add_argument("old", nargs="?")
    ap.add_argument("new", nargs="?")
    ap.add_argument("--patch")
    ap.add_argument("--jobs", default="8")
    ap.add_argument("--only")
    ap.add_argument("--tier", default="quick")
    ap.add_argument("--count", type=int, default=1)
    a = ap.parse_args()
    wt = "/root/scratch/mut-%d" % os.getpid()
    os.makedirs("/root/scratch", exist_ok=True)
    subprocess.check_call(["git", "-C", "/repo", "worktree", "add", "-q",
                           "--detach", wt, "HEAD"])
    try:
        if a.patch:
            subprocess.check_call(["git", "-C", wt, "apply",
                                   os.path.abspath(a.patch)])
        else:
            p = os.path.join(wt, a.file)
            s = open(p).read()
            if a.old not in s:
                print("MUTATE-ERROR: pattern not found in", a.file)
                return 2
            s = s.replace(a.old, a.new, a.count)
            open(p, "w").write(s)
        rc_all = 0
        for pid in a.props.split(","):
            env = dict(os.environ, VERIF_REPO=wt)
            cmd = [os.path.join(build.VERIF, "check"), pid, "--no-evidence",
                   "--jobs", a.jobs, "--tier", a.tier]
            if a.only:
                cmd += ["--only", a.only]
            r = subprocess.run(cmd, env=env, stdout=subprocess.PIPE,
                               stderr=subprocess.STDOUT, text=True)
            sigs = [l.strip() for l in r.stdout.splitlines()
                    if l.strip().startswith("signature=")]
            print("%s %s rc=%d  %s" % (
                "CAUGHT" if r.returncode == 1 else
                ("MISSED" if r.returncode == 0 else "ERROR"), pid,
                r.returncode, "; ".join(s[:90] for s in sigs[:4])))
            if r.returncode not in (0, 1):
                print(r.stdout[-3000:])
            rc_all |= (r.returncode != 1)
        return rc_all
    finally:
        subprocess.call(["git", "-C", "/repo", "worktree", "remove",
                         "--force", wt])
        shutil.rmtree(wt, ignore_errors=True)
        subprocess.call(["git", "-C", "/repo", "worktree", "prune"])
        # drop the mutant's build directory as well
        # (hash-keyed; found via BUILD_INFO root=)
        for d in os.listdir(build.BUILD_ROOT):
            info = os.path.join(build.BUILD_ROOT, d, "BUILD_INFO")
            if os.path.exists(info) and ("root=%s " % wt) in open(info).read():
                shutil.rmtree(os.path.join(build.BUILD_ROOT, d),
                              ignore_errors=True)


if __name__ == "__main__":
    sys.exit(main())
