"""MANIFEST.setup_cmd: make the framework runnable offline from files on disk.

* hypothesis (+ its deps) must be importable by /venv/bin/python; if it is
  not, install it from the offline wheelhouse into /verif/.deps
  (pip --no-index --target), leaving /venv untouched;
* pre-build the plain and asan flavours of /repo's working tree.
"""
import os
import subprocess
import sys

from vp import build

VERIF = build.VERIF


def main():
    deps = os.path.join(VERIF, ".deps")
    try:
        import hypothesis  # noqa: F401
        print("hypothesis", hypothesis.__version__, "importable")
    except ImportError:
        os.makedirs(deps, exist_ok=True)
        subprocess.check_call([
            build.PY, "-m", "pip", "install", "--no-index", "--find-links",
            "/opt/veriftools/wheels", "--target", deps, "hypothesis"])
    for fl in sys.argv[1:] or ["plain"]:
        d, h = build.ensure(fl)
        print("built", fl, d)
    return 0


if __name__ == "__main__":
    sys.exit(main())
