#!/bin/sh
# tools/seed_queue.sh <queuefile>: process lines "BASE ID [extra ids]" one after another; new lines may be appended while
# it runs; stops when it reads the line "END".
Q=$1; n=0
while true; do
  total=$(wc -l < $Q)
  if [ $n -lt $total ]; then
    n=$((n+1)); line=$(sed -n "${n}p" $Q)
    [ "$line" = "END" ] && exit 0
    set -- $line; base=$1; shift
    SEED_BASE=$base /verif/tools/seed_eval.sh "$@" > /dev/null 2>&1
  else
    sleep 20
  fi
done
