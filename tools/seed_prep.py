"""tools/seed_prep.py <base dir>  - prepare a round of seeded changes: <base>/<ID>/PROPERTY.txt (the property record
only, plus one paragraph per earlier round saying which code site is already used) and a scratch worktree
<base>/<ID>/wt of /repo's HEAD with the built extension modules copied in. Nothing from /verif is handed over."""
import glob
import json
import os
import shutil
import subprocess
import sys

base = sys.argv[1]
os.makedirs(base, exist_ok=True)
props = [json.loads(l) for l in open("/verif/properties.jsonl")]
for p in props:
    pid = p["id"]
    d = os.path.join(base, pid)
    os.makedirs(d, exist_ok=True)
    used = []
    for sd in sorted(glob.glob("/verif/seeded/%s*" % pid)):
        m = json.load(open(os.path.join(sd, "meta.json")))
        used.append("  %s: %s" % (os.path.basename(sd), " ".join(str(m.get("summary", "")).split())[:700]))
    txt = ("PROPERTY %s - %s\n\nSTATEMENT: %s\n\nQUANTIFIER: %s\n\nWHY THE EXISTING TESTS CANNOT SETTLE IT: %s\n\n"
           "CODE ANCHORS (files): %s\n\n" % (pid, p["title"], p["statement"], p["quantifier"]["text"],
                                             p["why_tests_cant"], ", ".join(p["anchors"]["files"])))
    if used:
        txt += ("ALREADY USED IN EARLIER ROUNDS (choose a DIFFERENT code site - ideally a different class / file / "
                "kernel among the anchors - and a different kind of trigger):\n" + "\n".join(used) + "\n")
    open(os.path.join(d, "PROPERTY.txt"), "w").write(txt)
    wt = os.path.join(d, "wt")
    if not os.path.isdir(wt):
        subprocess.check_call(["git", "-C", "/repo", "worktree", "add", "-q", "--detach", wt, "HEAD"])
        for so in glob.glob("/repo/src/pyunicorn/*/_ext/*.so"):
            shutil.copy2(so, os.path.join(wt, os.path.relpath(so, "/repo")))
print("prepared", base)
