#!/bin/sh
# tools/mutation_targeted2.sh <lane 1|2> [seed]: second, shorter part of the targeted campaign (see mutation_targeted.sh)
cd "$(dirname "$0")/.."
S=${2:-3}; export MUT_OUT=${MUT_OUT:-/tmp/mutants3} JOBS=${JOBS:-4}
run() { MUT_FUNCS="$2" /venv/bin/python tools/mutation_campaign.py $1 $3 $S $4 $5 $6 > /dev/null 2>&1; }
if [ "$1" = 1 ]; then
run C05 '^(__init__|copy|Load|save|FromIGraph|adjacency|edge_list|node_weights|link_attribute|set_link_attribute|del_link_attribute|n_links|link_density|_set_adjacency|_set_edge_list|undirected_copy|permuted_copy|set_edge_list|graph_attributes)$' 14
run C11 'cross_|internal_|number_|_calc' 14 src/pyunicorn/core/interacting_networks.py
run C08 'diagline|vertline|white_vert|determinism|laminarity|max_|average_|trapping|entropy|recurrence_time|rqa_summary|resample|mean_recurrence' 14 src/pyunicorn/timeseries/recurrence_plot.py
else
run C09 'threshold|link_density|non_local|adjacency|_regenerate|_calculate|similarity' 14 src/pyunicorn/climate/climate_network.py src/pyunicorn/climate/tsonis.py
run C16 '.' 12
run C18 '.' 10
run C19 'newman|arenas|nsi_betweenness|_nsi_betweenness|_mpi|submit|get_result|run|_get' 8 src/pyunicorn/core/network.py src/pyunicorn/utils/mpi.py
fi
