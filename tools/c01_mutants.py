"""tools/c01_mutants.py [kind]  - sensitivity of C01 (cache coherence) by the mutants that matter for it:
(a) every invalidation site `self._mut_X += 1` / `net._mut_X += 1` / `self._recurrence_matrix_changed()` replaced by
`pass`; (b) every `@Cached.method(attrs=(...))` decorator stripped of its attrs.  One scratch worktree per mutant
(vp.mutate), C01 quick tier; one line per mutant, appended to ${MUT_OUT:-/tmp/mutants}/C01.txt.
"""
import glob
import os
import re
import subprocess
import sys

V = os.path.dirname(os.path.dirname(os.path.abspath(__file__)))
kind = sys.argv[1] if len(sys.argv) > 1 else "all"
sites = []
for p in sorted(glob.glob("/repo/src/pyunicorn/**/*.py", recursive=True)):
    rel = os.path.relpath(p, "/repo")
    src = open(p).read()
    lines = src.split("\n")
    for i, line in enumerate(lines):
        if kind in ("all", "inval") and re.search(r"^\s*(self|net)\._mut_\w+ \+= 1\s*$", line) or \
                kind in ("all", "inval") and re.search(r"^\s*self\._recurrence_matrix_changed\(\)\s*$", line):
            # a unique replacement target: the line together with its predecessor
            old = lines[i - 1] + "\n" + line
            if src.count(old) == 1:
                ind = re.match(r"\s*", line).group(0)
                sites.append((rel, i + 1, old, lines[i - 1] + "\n" + ind + "pass"))
        if kind in ("all", "attrs") and "attrs=(" in line and "Cached.method" in line:
            old = line + "\n" + lines[i + 1]
            new = re.sub(r",?\s*attrs=\([^)]*\)", "", line) + "\n" + lines[i + 1]
            if src.count(old) == 1 and new != old:
                sites.append((rel, i + 1, old, new))
out_dir = os.environ.get("MUT_OUT", "/tmp/mutants")
os.makedirs(out_dir, exist_ok=True)
log = open(os.path.join(out_dir, "C01.txt"), "a")
print("%d sites" % len(sites))
for rel, ln, old, new in sites:
    r = subprocess.run(["/venv/bin/python", "-m", "vp.mutate", "C01", rel, old, new, "--jobs",
                        os.environ.get("JOBS", "6")], cwd=V, stdout=subprocess.PIPE, stderr=subprocess.STDOUT,
                       text=True)
    verdict = [l for l in r.stdout.splitlines() if l.startswith(("CAUGHT", "MISSED", "ERROR", "MUTATE-ERROR"))]
    msg = "%s | %s:%d | %s" % ((verdict or ["?"])[0][:70], rel.split("/")[-1], ln,
                               old.split("\n")[-1].strip()[:80] if "attrs=(" not in old else old.split("\n")[0].strip()[:100])
    print(msg, flush=True)
    log.write(msg + "\n")
    log.flush()
