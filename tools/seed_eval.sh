#!/bin/sh
# tools/seed_eval.sh <ID> [extra check ids...] - confirm a seeded change produced by an independent sub-agent in
# /tmp/seed/<ID> (worktree wt, patch.diff, demo.py, meta.json) and run our checks on it. Never uses git stash
# (the stash stack is shared between worktrees). SKIP_TESTS=1 skips the repository test-suite run.
ID=$1; shift
D=${SEED_BASE:-/tmp/seed}/$ID; WT=$D/wt
OUT=$D/eval.txt; : > $OUT
cd $WT || exit 2
git checkout -q -- . && git apply $D/patch.diff || { echo "patch does not apply" >> $OUT; cat $OUT; exit 2; }
echo "== patch stat" >> $OUT; git diff --stat >> $OUT
PYX=$(git diff --name-only | grep -c -E '\.(pyx|c|pxd)$')
/venv/bin/python setup.py -q build_ext --inplace > /dev/null 2>&1
PYTHONPATH=$WT/src /venv/bin/python $D/demo.py > $D/demo_with.log 2>&1; echo "demo_with_change_exit=$?" >> $OUT
if [ -z "$SKIP_TESTS" ]; then
PYTHONPATH=$WT/src /venv/bin/python -m pytest -q -p no:cacheprovider -n 4 tests --deselect tests/test_climate/test_map_plot.py > $D/tests_with.log 2>&1
echo "tests_with_change: $(tail -1 $D/tests_with.log)" >> $OUT
fi
git checkout -q -- .
[ "$PYX" -gt 0 ] && /venv/bin/python setup.py -q build_ext --inplace --force > /dev/null 2>&1
PYTHONPATH=$WT/src /venv/bin/python $D/demo.py > $D/demo_without.log 2>&1; echo "demo_without_change_exit=$?" >> $OUT
git apply $D/patch.diff
[ "$PYX" -gt 0 ] && /venv/bin/python setup.py -q build_ext --inplace --force > /dev/null 2>&1
cd /verif
for C in $ID "$@"; do
  VERIF_REPO=$WT ./check $C --no-evidence --jobs 8 > $D/check_$C.log 2>&1; rc=$?
  echo "check $C rc=$rc $(grep -c '^VIOLATION' $D/check_$C.log) violation lines; $(grep 'signature=' $D/check_$C.log | head -3 | cut -c1-150 | tr '\n' ';')" >> $OUT
done
cat $OUT
