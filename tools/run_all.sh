#!/bin/sh
# tools/run_all.sh [tier]: run every claimed check sequentially in /verif against /repo (rewrites evidence/*.json)
cd "$(dirname "$0")/.."
T=${1:-quick}
for p in C01 C02 C03 C04 C05 C06 C07 C08 C09 C10 C11 C12 C13 C14 C15 C16 C17 C18 C19 C20; do
  ./check $p --tier $T > ${TMPDIR:-/tmp}/runall_$p.log 2>&1; echo "$p rc=$? $(tail -1 ${TMPDIR:-/tmp}/runall_$p.log)"
done
