"""tools/seed_record.py <ID> [note]  - copy a confirmed seeded change from /tmp/seed/<ID> to /verif/seeded/<ID>/
(patch.diff, demo.py, meta.json extended by what the main session ran itself)."""
import json
import os
import shutil
import sys

ID = sys.argv[1]
note = sys.argv[2] if len(sys.argv) > 2 else ""
src = "%s/%s" % (os.environ.get("SEED_BASE", "/tmp/seed"), ID)
dst = "/verif/seeded/%s%s" % (ID, os.environ.get("SEED_SUFFIX", ""))
os.makedirs(dst, exist_ok=True)
for f in ("patch.diff", "demo.py"):
    shutil.copy(os.path.join(src, f), os.path.join(dst, f))
try:
    meta = json.load(open(os.path.join(src, "meta.json")))
except Exception as e:  # pylint: disable=broad-except
    meta = {"agent_meta_unreadable": repr(e)}
ev = open(os.path.join(src, "eval.txt")).read().splitlines()
conf = {"confirmed_by_main_session": {
    "how": "tools/seed_eval.sh: patch applied to a scratch worktree of /repo, extensions rebuilt, demo.py run with "
           "and without the change, repository test-suite run with the change (PYTHONPATH=<wt>/src, "
           "test_map_plot deselected), then ./check <ID> with VERIF_REPO=<wt>",
    "eval_lines": [l for l in ev if l.startswith(("demo_", "tests_with", "check "))],
    "note": note}}
meta.update(conf)
meta.setdefault("property", ID)
json.dump(meta, open(os.path.join(dst, "meta.json"), "w"), indent=1)
print("recorded", dst)
