#!/bin/sh
# tools/mutation_targeted.sh <lane 1|2> [seed]: generated mutants restricted to the functions each property is about
# (MUT_FUNCS), two lanes that can run side by side; results in ${MUT_OUT:-/tmp/mutants3}/<ID>.txt
cd "$(dirname "$0")/.."
S=${2:-3}; export MUT_OUT=${MUT_OUT:-/tmp/mutants3} JOBS=${JOBS:-6}
run() { MUT_FUNCS="$2" /venv/bin/python tools/mutation_campaign.py $1 $3 $S $4 $5 $6 > /dev/null 2>&1; }
if [ "$1" = 1 ]; then
run C17 '^(Model|ErdosRenyi|BarabasiAlbert|BarabasiAlbert_igraph|Configuration|randomly_rewire.*|set_random_links_by_distance|RandomlySetCrossLinks.*|RandomlyRewireCrossLinks)$' 25
run C03 'degree|strength|clustering|transitivity|cliquish|path|closeness|efficiency|vulnerab|betweenness|matching|coreness|assortativity|laplacian|eigenvector|pagerank|motif|bildegree|diameter' 30 src/pyunicorn/core/network.py
run C05 '^(__init__|copy|Load|save|FromIGraph|adjacency|edge_list|node_weights|link_attribute|set_link_attribute|del_link_attribute|n_links|link_density|_set_adjacency|_set_edge_list|undirected_copy|permuted_copy|set_edge_list|graph_attributes)$' 25
run C11 'cross_|internal_|number_|_calc' 25 src/pyunicorn/core/interacting_networks.py
run C08 'diagline|vertline|white_vert|determinism|laminarity|max_|average_|trapping|entropy|recurrence_time|rqa_summary|resample|mean_recurrence' 25 src/pyunicorn/timeseries/recurrence_plot.py
run C18 '.' 20
else
run C02 '^nsi_|^sp_|splitted_copy|_nsi' 30
run C12 'distance|cos_lat|sin_lat|node_number|RegularGrid|coord_sequence|area_weighted|link_distance|set_node_weight_type|geometric|boundaries|grid_size|sequence|^grid$|lat_|lon_|convert' 25
run C15 'surrogates|twins|embed|normalize|noise|AAFT|original' 25 src/pyunicorn/timeseries/surrogates.py
run C09 'threshold|link_density|non_local|adjacency|_regenerate|_calculate|similarity' 25 src/pyunicorn/climate/climate_network.py src/pyunicorn/climate/tsonis.py
run C19 'newman|arenas|nsi_betweenness|_nsi_betweenness|_mpi|submit|get_result|run|_get' 20 src/pyunicorn/core/network.py src/pyunicorn/utils/mpi.py
run C16 '.' 20
fi
