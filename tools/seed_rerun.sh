#!/bin/sh
# tools/seed_rerun.sh <seeded-name> [check ids...]  - re-run the current checks against a recorded seeded change.
# A scratch worktree of /repo HEAD is created under ${SEED_RR:-/tmp/seedrr}/<name>, seeded/<name>/patch.diff applied
# (the patch was made against an older HEAD; a patch that no longer applies is reported as such), the checks named
# (default: the property the change was written for) are run with VERIF_REPO pointing at it, one line per check is
# appended to ${SEED_RR}/matrix.txt, and the worktree is removed again. Nothing is written to /repo.
NAME=$1; shift
V=$(cd "$(dirname "$0")/.." && pwd)
BASE=${SEED_RR:-/tmp/seedrr}; mkdir -p $BASE
WT=$BASE/$NAME
ID=$(echo $NAME | cut -c1-3)
[ $# -eq 0 ] && set -- $ID
git -C /repo worktree remove --force $WT 2>/dev/null
git -C /repo worktree add -q --detach $WT HEAD || exit 2
if ! git -C $WT apply $V/seeded/$NAME/patch.diff 2>$BASE/$NAME.apply.err; then
  echo "$NAME PATCH-DOES-NOT-APPLY $(head -1 $BASE/$NAME.apply.err)" >> $BASE/matrix.txt
  git -C /repo worktree remove --force $WT; exit 0
fi
cd $V
for C in "$@"; do
  VERIF_REPO=$WT ./check $C --no-evidence --jobs ${JOBS:-6} > $BASE/$NAME.$C.log 2>&1; rc=$?
  echo "$NAME $C rc=$rc $(grep -c '^VIOLATION' $BASE/$NAME.$C.log) $(grep 'signature=' $BASE/$NAME.$C.log | head -1 | cut -c1-110)" >> $BASE/matrix.txt
done
git -C /repo worktree remove --force $WT
git -C /repo worktree prune
