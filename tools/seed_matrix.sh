#!/bin/sh
# tools/seed_matrix.sh [parallel]  - re-run the current checks against all recorded seeded changes (tools/seed_rerun.sh);
# changes that by their own terms belong to another property are run against that property's check as well.
V=$(cd "$(dirname "$0")/.." && pwd)
BASE=${SEED_RR:-/tmp/seedrr}; mkdir -p $BASE; : > $BASE/matrix.txt
extra() {
  case $1 in
    C06-r4) echo "C06 C01 C09";; C06-r5) echo "C06 C01";; C11-r2) echo "C11 C06";;
    C04-r6) echo "C04 C19";; C09-r6) echo "C09 C10";; C15-r6) echo "C15 C01";;
    C09-r7) echo "C09 C11";; C13-r7) echo "C13 C06";; C01-r8) echo "C01 C06";;
    C12-r8) echo "C12 C06";; C16-r8) echo "C16 C06";;
    *) echo "";;
  esac
}
for d in $V/seeded/*/; do
  n=$(basename $d); echo "$n $(extra $n)" | sed "s/ *$//"
done | xargs -P ${1:-3} -L 1 $V/tools/seed_rerun.sh
sort $BASE/matrix.txt
