#!/bin/sh
# tools/seed_matrix.sh [parallel]  - re-run the current checks against all recorded seeded changes (tools/seed_rerun.sh);
# changes that by their own terms belong to another property are run against that property's check as well.
V=$(cd "$(dirname "$0")/.." && pwd)
BASE=${SEED_RR:-/tmp/seedrr}; mkdir -p $BASE; : > $BASE/matrix.txt
extra() {
  case $1 in
    C06-r4) echo "C06 C01 C09";; C06-r5) echo "C06 C01";; C11-r2) echo "C11 C06";;
    *) echo "";;
  esac
}
for d in $V/seeded/*/; do
  n=$(basename $d); echo "$n $(extra $n)" | sed "s/ *$//"
done | xargs -P ${1:-3} -L 1 $V/tools/seed_rerun.sh
sort $BASE/matrix.txt
