#!/bin/sh
# tools/seed_recheck.sh BASE ID [check ids]: re-run checks against an already confirmed seeded worktree after the
# checks were strengthened; appends "check ... (after strengthening)" lines to eval.txt
BASE=$1; ID=$2; shift; shift
D=$BASE/$ID; WT=$D/wt
[ $# -eq 0 ] && set -- $ID
cd /verif
for C in "$@"; do
  VERIF_REPO=$WT ./check $C --no-evidence --jobs 8 > $D/recheck_$C.log 2>&1; rc=$?
  echo "check $C rc=$rc (after strengthening) $(grep -c '^VIOLATION' $D/recheck_$C.log) violation lines; $(grep 'signature=' $D/recheck_$C.log | head -2 | cut -c1-150 | tr '\n' ';')" >> $D/eval.txt
done
tail -2 $D/eval.txt
