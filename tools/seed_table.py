"""Print the DESIGN.md section 9 table from /verif/seeded/*/meta.json."""
import glob
import json
import os

rows = []
for d in sorted(glob.glob("/verif/seeded/*/")):
    d = d.rstrip("/")
    m = json.load(open(os.path.join(d, "meta.json")))
    c = m.get("confirmed_by_main_session", {})
    ev = c.get("eval_lines", [])
    chk = [l for l in ev if l.startswith("check ")]
    res = []
    for l in chk:
        parts = l.split()
        res.append("%s:%s" % (parts[1], "caught" if parts[2] == "rc=1" else ("MISSED" if parts[2] == "rc=0" else parts[2])))
    summ = (m.get("summary") or m.get("needs_to_manifest") or "")
    summ = " ".join(str(summ).split())[:230]
    rows.append("| %s | %s | %s | %s |" % (os.path.basename(d), summ.replace("|", "/"), ", ".join(res), c.get("note", "").replace("|", "/")))
print("| seeded change | what it is (agent's summary) | checks run against it | outcome / what was strengthened |")
print("|---|---|---|---|")
print("\n".join(rows))
