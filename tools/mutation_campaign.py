"""tools/mutation_campaign.py <ID> <K> [seed] [file ...]  - sensitivity by generated mutants.

Picks K single-token mutations (comparison flips, +-1, axis 0<->1, + <-> -, min <-> max) at random code lines of
the property's Python anchor files (function bodies only; docstrings, comments, prints, raises and asserts are
skipped), applies each to a scratch worktree (vp.mutate) and runs the property's quick check against it.  Prints one
line per mutant (CAUGHT / MISSED / ERROR); survivors are candidates for gaps in the check - or equivalent mutants -
and are looked at by hand.  Results are appended to ${MUT_OUT:-/tmp/mutants}/<ID>.txt.  MUT_FUNCS=<regex> restricts the
mutated lines to functions whose name matches (the anchor files are large and mostly about other properties).
"""
import ast
import json
import os
import random
import re
import subprocess
import sys

ID = sys.argv[1]
K = int(sys.argv[2])
seed = int(sys.argv[3]) if len(sys.argv) > 3 else 1
files = sys.argv[4:]
V = os.path.dirname(os.path.dirname(os.path.abspath(__file__)))
if not files:
    for l in open(os.path.join(V, "properties.jsonl")):
        p = json.loads(l)
        if p["id"] == ID:
            files = [f for f in p["anchors"]["files"] if f.endswith(".py") and "setup.py" not in f]

RULES = [
    (r" <= ", " < "), (r" < ", " <= "), (r" >= ", " > "), (r" > ", " >= "),
    (r" == ", " != "), (r" != ", " == "),
    (r" \+ 1\b", " - 1"), (r" - 1\b", " + 1"),
    (r"axis=0", "axis=1"), (r"axis=1", "axis=0"),
    (r" \+ ", " - "), (r" - ", " + "),
    (r"\bmin\(", "max("), (r"\bmax\(", "min("),
    (r"\.min\(", ".max("), (r"\.max\(", ".min("),
    (r"\bnp\.minimum\(", "np.maximum("), (r"\bnp\.maximum\(", "np.minimum("),
    (r" \* ", " / "), (r"\[1:\]", "[:-1]"), (r"\[:-1\]", "[1:]"),
]
FUNCS = os.environ.get("MUT_FUNCS", "")     # regex: only functions whose name matches are mutated
SKIP = re.compile(r"^\s*(#|print\(|raise |assert |warnings\.|return NotImplemented|import |from )")


def body_lines(path):
    src = open(path).read()
    tree = ast.parse(src)
    keep = set()
    for node in ast.walk(tree):
        if isinstance(node, (ast.FunctionDef, ast.AsyncFunctionDef)):
            if FUNCS and not re.search(FUNCS, node.name):
                continue
            body = node.body
            if body and isinstance(body[0], ast.Expr) and isinstance(getattr(body[0], "value", None), ast.Constant) \
                    and isinstance(body[0].value.value, str):
                body = body[1:]
            for st in body:
                for ln in range(st.lineno, getattr(st, "end_lineno", st.lineno) + 1):
                    keep.add(ln)
    # drop lines inside string constants spanning several lines (nested docstrings / messages)
    for node in ast.walk(tree):
        if isinstance(node, ast.Constant) and isinstance(node.value, str) and node.end_lineno > node.lineno:
            for ln in range(node.lineno, node.end_lineno + 1):
                keep.discard(ln)
    lines = src.split("\n")
    return [(ln, lines[ln - 1]) for ln in sorted(keep) if ln - 1 < len(lines)]


sites = []
for f in files:
    p = os.path.join("/repo", f)
    if not os.path.exists(p):
        continue
    whole = open(p).read()
    for ln, line in body_lines(p):
        if SKIP.match(line) or "silence_level" in line or not line.strip():
            continue
        code = line.split("  #")[0]
        for pat, rep in RULES:
            for m in re.finditer(pat, code):
                new = code[:m.start()] + re.sub(pat, rep, code[m.start():m.end()]) + code[m.end():] + line[len(code):]
                if whole.count(line) == 1:      # the replacement must hit this very line
                    sites.append((f, ln, line, new))
rng = random.Random(seed * 7919 + sum(map(ord, ID)))
rng.shuffle(sites)
out_dir = os.environ.get("MUT_OUT", "/tmp/mutants")
os.makedirs(out_dir, exist_ok=True)
log = open(os.path.join(out_dir, ID + ".txt"), "a")
print("%s: %d candidate sites in %s; running %d" % (ID, len(sites), files, min(K, len(sites))))
for f, ln, old, new in sites[:K]:
    r = subprocess.run(["/venv/bin/python", "-m", "vp.mutate", ID, f, old, new, "--jobs", os.environ.get("JOBS", "6")],
                       cwd=V, stdout=subprocess.PIPE, stderr=subprocess.STDOUT, text=True)
    verdict = [l for l in r.stdout.splitlines() if l.startswith(("CAUGHT", "MISSED", "ERROR", "MUTATE-ERROR"))]
    msg = "%s | %s:%d | %s  =>  %s" % ((verdict or ["?"])[0][:60], f.split("/")[-1], ln, old.strip()[:90],
                                        new.strip()[:90])
    print(msg, flush=True)
    log.write(msg + "\n")
    log.flush()
